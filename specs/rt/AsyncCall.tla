------------------------------ MODULE AsyncCall ------------------------------
(* C08: the protocol between ONE task of a guest (an export of generated Rust bindings whose body makes  *)
(* N import calls one after the other) and a component-model host, for async imports (`[async-lower]`,   *)
(* subtasks, waitable sets) and async exports (callback codes, `task.return`, `task.cancel`).            *)
(*                                                                                                        *)
(* There is one transition function, `Apply(St, e)`: the state after event e, or the same state with     *)
(* `bad` set to what e violates.  It is used twice:                                                        *)
(*  - MC_AsyncCall: Next == \E e \in Candidates(St) : Apply(St, e).bad = "" /\ St' = Apply(St, e) -- every *)
(*    behaviour of any guest that respects the guards, against every host schedule; invariants + absence   *)
(*    of deadlock (a task that can neither move nor is finished) are model-checked, and the schedules the  *)
(*    host can choose are emitted for the harness (GEN);                                                   *)
(*  - Trace_AsyncCall: the event log of the REAL bindings + runtime, run natively against harness/vhost    *)
(*    (ahost.rs), is folded through the same Apply; a guard that fails is a breach of C08.                 *)
(* Values: the host compares every lowered parameter / result with CallConv.CallEncoding and reports the  *)
(* number of mismatches in `errors`; a subtask that is STARTING is read only by the event that starts it.  *)
EXTENDS Naturals, Sequences, FiniteSets

STARTING == 0  STARTED == 1  RETURNED == 2  START_CANCELLED == 3  RETURN_CANCELLED == 4
Modes == {"R", "S", "G", "H"}
\* R: returned at the call.  S: started at the call.  G: starting, then started, then returned.  H: starting, then returned.

S0(n, aimp, aexp) ==
    [n |-> n, aimp |-> aimp, aexp |-> aexp, pc |-> "run", k |-> 0, subs |-> <<>>, cur |-> 0, sets |-> {}, nsets |-> 0, wset |-> 0,
     ret |-> 0, canc |-> 0, cancelReq |-> FALSE, waits |-> 0, modes |-> <<>>, cancelAt |-> 0, ended |-> FALSE, lent |-> {}, yields |-> 0, bad |-> ""]

\* what the guest does (the rest -- event -- is the host's; answer and task.end are the export / callback returning)
GuestEvents == {"import.call", "set.new", "set.drop", "join", "subtask.cancel", "subtask.drop", "task.return", "task.cancel", "borrow.drop"}
Bad(St, msg) == IF St.bad = "" THEN [St EXCEPT !.bad = msg] ELSE St
Need(St, c, msg) == IF c THEN St ELSE Bad(St, msg)
IsSub(St, h) == h \in 1..Len(St.subs)
Pending(s) == s.st \in {STARTING, STARTED}

CallOK(St, e) ==
    /\ e.mode \in Modes
    /\ e.status = (CASE e.mode = "R" -> RETURNED [] e.mode = "S" -> STARTED [] OTHER -> STARTING)
    /\ e.h = (IF e.mode = "R" THEN 0 ELSE Len(St.subs) + 1)
    /\ e.checked = (e.mode \in {"R", "S"})

Apply(St, e) ==
    IF St.bad # "" THEN St ELSE
    IF St.ended THEN Bad(St, "the task did something after the export had returned to the host for the last time (C08)") ELSE
    IF e.ev \in GuestEvents /\ St.pc # "run" THEN Bad(St, "the guest acted while its task was suspended (harness)") ELSE
    CASE e.ev = "import.call" ->
            LET g1 == Need(St, St.pc = "run" /\ St.cur = 0, "an import was called while the task was suspended or while another call was in flight (harness)")
                g2 == Need(g1, St.k < St.n /\ e.idx = St.k, "the task made more import calls than its body contains (C08)")
                g3 == Need(g2, ~St.cancelReq, "an import was called after the task had been cancelled (C08)")
                g4 == Need(g3, CallOK(St, e), "the host's answer does not match its schedule (harness)")
                g5 == Need(g4, e.errors = 0, "the parameters lowered for an async import are not the canonical encoding of the values passed (C08)")
            IN IF g5.bad # "" THEN g5
               ELSE [g5 EXCEPT !.k = @ + 1, !.modes = Append(@, e.mode), !.cur = e.h,
                               !.subs = IF e.h = 0 THEN @ ELSE Append(@, [st |-> e.status, mode |-> e.mode, set |-> 0, dropped |-> FALSE, checked |-> e.checked])]
      [] e.ev = "set.new" -> [Need(St, e.set = St.nsets + 1, "set numbering (harness)") EXCEPT !.sets = @ \cup {e.set}, !.nsets = @ + 1]
      [] e.ev = "set.drop" ->
            LET g == Need(Need(St, e.set \in St.sets, "waitable-set.drop of a set that does not exist (C08)"),
                          \A h \in 1..Len(St.subs) : St.subs[h].set # e.set, "waitable-set.drop of a set that still has members (C08)")
            IN [g EXCEPT !.sets = @ \ {e.set}]
      [] e.ev = "join" ->
            LET g == Need(Need(St, IsSub(St, e.h) /\ ~St.subs[e.h].dropped, "waitable.join of a subtask handle that does not exist (C08)"),
                          e.set = 0 \/ e.set \in St.sets, "waitable.join into a set that does not exist (C08)")
            IN IF g.bad # "" THEN g ELSE [g EXCEPT !.subs[e.h].set = e.set]
      [] e.ev = "answer" ->
            (CASE e.code = "wait" ->
                    LET g == Need(Need(Need(St, St.pc = "run", "the task answered while suspended (harness)"),
                                       St.cur # 0 /\ IsSub(St, St.cur) /\ St.subs[St.cur].set = e.set /\ e.set # 0,
                                       "the task waits on a waitable set that its pending subtask has not joined: it can never be woken (C08)"),
                                  St.cur # 0 /\ IsSub(St, St.cur) /\ Pending(St.subs[St.cur]), "the task waits although its subtask has already returned (C08)")
                    IN [g EXCEPT !.pc = "wait", !.wset = e.set, !.waits = @ + 1]
               [] e.code = "exit" ->
                    LET g == Need(Need(Need(St, St.pc = "run", "exit while suspended (harness)"),
                                       St.ret + St.canc = 1,
                                       "an async export finished without exactly one task.return or task.cancel (C08)"),
                                  St.cur = 0, "the task finished while an import call was still in flight (C08)")
                    IN [g EXCEPT !.pc = "done"]
               [] OTHER -> [Need(St, St.pc = "run", "yield while suspended (harness)") EXCEPT !.pc = "yielded", !.waits = @ + 1, !.yields = @ + 1])
      [] e.ev = "event" ->
            IF e.kind = "cancel" THEN
                LET g == Need(Need(St, St.pc \in {"wait", "yielded"}, "event delivered to a task that is not suspended (harness)"),
                              St.aexp /\ ~St.cancelReq, "second cancellation request (harness)")
                IN [g EXCEPT !.cancelReq = TRUE, !.pc = "run", !.cancelAt = St.waits]
            ELSE IF e.kind = "none" THEN
                [Need(St, St.pc = "yielded", "the task was re-entered without an event although it had not yielded (harness)") EXCEPT !.pc = "run"]
            ELSE
                LET h == e.h
                    ok == St.pc = "wait" /\ IsSub(St, h) /\ St.subs[h].set = St.wset /\ Pending(St.subs[h])
                    g1 == Need(St, ok, "the host delivered an event for a subtask that is not pending in the waited set (harness)")
                    was == IF ok THEN St.subs[h].st ELSE STARTED
                    want == IF was = STARTING /\ ok /\ St.subs[h].mode = "G" THEN STARTED ELSE RETURNED
                    g2 == Need(g1, e.status = want /\ e.checked = (was = STARTING), "the host's event does not match its schedule (harness)")
                    g3 == Need(g2, e.errors = 0,
                               "the lowered parameters of an async import were no longer alive / intact when the callee started: they must stay valid until STARTED (C08)")
                IN IF g3.bad # "" THEN g3 ELSE [g3 EXCEPT !.subs[h].st = e.status, !.subs[h].checked = TRUE, !.pc = "run"]
      [] e.ev = "subtask.cancel" ->
            LET ok == IsSub(St, e.h) /\ ~St.subs[e.h].dropped /\ Pending(St.subs[e.h])
                g1 == Need(St, ok, "subtask.cancel of a subtask that is not in flight (C08)")
                g2 == Need(g1, ok => St.subs[e.h].set = 0, "subtask.cancel while the subtask is still a member of a waitable set (C08)")
                g3 == Need(g2, St.cancelReq, "an import call was cancelled although nobody cancelled the task (C08)")
                \* a call that is still STARTING is stopped before it starts (mode G), or has started in the meantime and gives up
                \* (mode H): then the host has read the parameters at this very moment
                early == ok /\ St.subs[e.h].st = STARTING /\ St.subs[e.h].mode = "G"
                late == ok /\ St.subs[e.h].st = STARTING /\ St.subs[e.h].mode # "G"
                g4 == Need(g3, ok => (e.status = (IF early THEN START_CANCELLED ELSE RETURN_CANCELLED) /\ e.checked = late), "cancel status (harness)")
                g5 == Need(g4, e.errors = 0,
                           "the lowered parameters of an async import were no longer alive / intact when the callee started just before the cancellation (C08)")
            IN IF g5.bad # "" THEN g5 ELSE [g5 EXCEPT !.subs[e.h].st = e.status, !.subs[e.h].checked = @ \/ e.checked]
      [] e.ev = "subtask.drop" ->
            LET ok == IsSub(St, e.h) /\ ~St.subs[e.h].dropped
                g1 == Need(St, ok, "subtask.drop of a handle that does not exist: dropped twice (C08)")
                g2 == Need(g1, ok => St.subs[e.h].set = 0, "subtask.drop while the subtask is still a member of a waitable set (C08)")
                g3 == Need(g2, ok => ~Pending(St.subs[e.h]), "subtask.drop of a subtask that has neither returned nor been cancelled (C08)")
            IN IF g3.bad # "" THEN g3 ELSE [g3 EXCEPT !.subs[e.h].dropped = TRUE, !.cur = IF @ = e.h THEN 0 ELSE @]
      [] e.ev = "borrow.lend" -> [St EXCEPT !.lent = {e.hs[i] : i \in 1..Len(e.hs)}]
      [] e.ev = "borrow.drop" ->
            [Need(St, e.h \in St.lent, "resource-drop of a handle that was not lent to this call, or was dropped already (C08)") EXCEPT !.lent = @ \ {e.h}]
      [] e.ev = "task.return" ->
            LET g1 == Need(St, St.aexp, "task.return from a synchronous export (C08)")
                g2 == Need(g1, St.ret = 0 /\ St.canc = 0, "task.return after the task had already returned or been cancelled: the result must be reported exactly once (C08)")
                g3 == Need(g2, St.k = St.n /\ St.cur = 0, "task.return before the body's import calls had finished (harness)")
                g4 == Need(g3, e.errors = 0, "the values passed to task.return are not the canonical encoding of the export's result (C08)")
                g5 == Need(g4, St.lent = {}, "task.return while a handle borrowed for the call is still held: the synchronous binding drops it before returning, "
                                             \o "and the component model traps (C08)")
            IN [g5 EXCEPT !.ret = 1]
      [] e.ev = "task.cancel" ->
            LET g1 == Need(St, St.cancelReq, "task.cancel without a cancellation request (C08)")
                g2 == Need(g1, St.ret = 0 /\ St.canc = 0, "task.cancel after the task had already returned or been cancelled: cancellation must be signalled exactly once (C08)")
                g3 == Need(g2, St.lent = {}, "task.cancel while a handle borrowed for the call is still held (C08)")
            IN [g3 EXCEPT !.canc = 1]
      [] e.ev = "task.end" ->
            LET g1 == Need(St, IF St.aexp THEN St.pc = "done" ELSE (St.pc = "run" /\ St.cur = 0), "the export returned to the host while the task was suspended (C08)")
                g2 == Need(g1, \A h \in 1..Len(St.subs) : St.subs[h].dropped, "a subtask handle was never dropped (C08)")
                g3 == Need(g2, St.sets = {}, "a waitable set was never dropped (C08)")
                g4 == Need(g3, St.cancelReq \/ St.k = St.n, "the task ended before its body had made all its import calls (C08)")
                g5 == Need(g4, St.aexp => (IF St.cancelReq THEN St.canc = 1 /\ St.ret = 0 ELSE St.ret = 1 /\ St.canc = 0),
                           "the outcome reported by the task does not match what happened: a cancelled task signals task.cancel, any other returns its result (C08)")
            IN [g5 EXCEPT !.ended = TRUE]
      [] OTHER -> Bad(St, "unknown event")

\* -------------------------------------------------------------------------------------------------------------
\* the candidate events of a state (guest moves and host moves); MC keeps those whose guards hold
StatusOf(m) == CASE m = "R" -> RETURNED [] m = "S" -> STARTED [] OTHER -> STARTING
Candidates(St) ==
    LET nh == Len(St.subs) + 1 IN
    {[ev |-> "import.call", idx |-> St.k, mode |-> m, h |-> IF m = "R" THEN 0 ELSE nh, status |-> StatusOf(m), checked |-> m \in {"R", "S"}, errors |-> 0] :
        m \in (IF St.aimp THEN Modes ELSE {"R"})}
    \cup (IF St.nsets < 1 THEN {[ev |-> "set.new", set |-> St.nsets + 1]} ELSE {})
    \cup {[ev |-> "set.drop", set |-> s] : s \in St.sets}
    \cup {[ev |-> "join", h |-> h, set |-> s] : h \in 1..Len(St.subs), s \in St.sets \cup {0}}
    \cup {[ev |-> "answer", code |-> "wait", set |-> s] : s \in St.sets}
    \cup {[ev |-> "answer", code |-> "exit", set |-> 0]}
    \cup (IF St.waits < 3 THEN {[ev |-> "answer", code |-> "yield", set |-> 0]} ELSE {})
    \cup {[ev |-> "event", kind |-> k, h |-> 0, status |-> 0, checked |-> FALSE, errors |-> 0] : k \in {"cancel", "none"}}
    \cup {[ev |-> "borrow.drop", h |-> h] : h \in St.lent}
    \cup {[ev |-> "event", kind |-> "subtask", h |-> h, status |-> st, checked |-> c, errors |-> 0] : h \in 1..Len(St.subs), st \in {STARTED, RETURNED}, c \in BOOLEAN}
    \cup {[ev |-> "subtask.cancel", h |-> h, status |-> st, checked |-> c, errors |-> 0] : h \in 1..Len(St.subs), st \in {START_CANCELLED, RETURN_CANCELLED}, c \in BOOLEAN}
    \cup {[ev |-> "subtask.drop", h |-> h] : h \in 1..Len(St.subs)}
    \cup {[ev |-> "task.return", errors |-> 0], [ev |-> "task.cancel"], [ev |-> "task.end"]}

\* what must hold in every reachable state of every guest that respects the guards
OneOutcome(St) == St.ret + St.canc <= 1
DoneMeansReported(St) == (St.pc = "done" /\ St.aexp) => St.ret + St.canc = 1
StartedMeansRead(St) == \A h \in 1..Len(St.subs) : St.subs[h].st \in {STARTED, RETURNED, RETURN_CANCELLED} => St.subs[h].checked
NeverReadIfCancelledBeforeStart(St) == \A h \in 1..Len(St.subs) : St.subs[h].st = START_CANCELLED => ~St.subs[h].checked
NoBorrowOutlivesTheCall(St) == (St.ret = 1 \/ St.canc = 1) => St.lent = {}
EndedClean(St) == St.ended => /\ \A h \in 1..Len(St.subs) : St.subs[h].dropped /\ St.subs[h].set = 0 /\ ~Pending(St.subs[h])
                              /\ St.sets = {}
                              /\ St.aexp => (St.canc = 1) = St.cancelReq
=============================================================================
