--------------------------- MODULE MC_ResourceOwn ---------------------------
(* GEN: every history of at most MaxLen operations (guest and host side interleaved).        *)
EXTENDS ResourceOwn, Json
CONSTANT MaxLen
VARIABLES hist, full, live
Init == hist = <<>> /\ full = {} /\ live = {}
Next == /\ Len(hist) < MaxLen
        /\ \E o \in GuestOps(full, live) \cup HostOps(full, live) :
              /\ hist' = Append(hist, o)
              /\ full' = FullAfter(full, o)
              /\ live' = LiveAfter(live, o)
Emit == Len(hist) >= 1 => PrintT(<<"VEC", ToJson([ops |-> hist])>>)
=============================================================================
