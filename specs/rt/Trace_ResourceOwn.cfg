INIT TInit
NEXT TNext
INVARIANT NoViolation
POSTCONDITION Accepted
CHECK_DEADLOCK FALSE
