----------------------------- MODULE MC_Realloc -----------------------------
(* Bounded exploration of Realloc with (a) a model of what `cabi_realloc` / `Cleanup` do,   *)
(* branch by branch, and (b) an arbitrary well-behaved allocator over a tiny address space. *)
(* Checks that the design meets C24 and generates request histories for replay (GEN).        *)
EXTENDS Realloc, Json

CONSTANTS Addrs, Sizes, Aligns, MaxReq

VARIABLES hist,     \* symbolic request history (GEN): blocks are named by the request that made them
          made,     \* addr -> index of the request that returned it
          got       \* MC only: what the allocator returned to the call in progress (-1: nothing yet)

mcvars == <<vars, hist, made, got>>

MCInit == Init /\ hist = <<>> /\ made = <<>> /\ got = 0 - 1

Fits(p, n, a) == p \in Addrs /\ p + n - 1 \in Addrs /\ p % a = 0 /\ FreeRange(heap, p, n)

\* --- the host issues a request (any request the contract allows)
HostCall ==
    /\ Len(hist) < MaxReq /\ pend = NoCall /\ got = 0 - 1 /\ got' = 0 - 1
    /\ \/ \E a \in Aligns, n \in Sizes \cup {0} :
             /\ Call(0, 0, a, n)
             /\ hist' = Append(hist, [op |-> "realloc", old |-> 0, oldn |-> 0, align |-> a, newn |-> n])
       \/ \E p \in Dom(blocks), n \in Sizes :
             /\ Call(p, blocks[p].size, blocks[p].align, n)
             /\ hist' = Append(hist, [op |-> "realloc", old |-> made[p], oldn |-> blocks[p].size,
                                      align |-> blocks[p].align, newn |-> n])
    /\ UNCHANGED made

\* --- model of cabi_realloc (mod.rs), one action per branch / allocator call
ImplAlloc ==       \* old_len = 0, new_len > 0: alloc(new_len, align)
    /\ pend.op = "realloc" /\ got = 0 - 1 /\ pend.oldn = 0 /\ pend.newn > 0
    /\ \E p \in Addrs : Fits(p, pend.newn, pend.align) /\ SysAlloc(pend.newn, pend.align, p) /\ got' = p
    /\ UNCHANGED <<hist, made>>

ImplRealloc ==     \* old_len > 0: realloc(old_ptr, Layout(old_len, align), new_len)
    /\ pend.op = "realloc" /\ got = 0 - 1 /\ pend.oldn > 0
    /\ \E q \in Addrs :
          /\ q % pend.align = 0 /\ q + pend.newn - 1 \in Addrs
          /\ FreeRange(Del(heap, pend.oldp), q, pend.newn)
          /\ SysRealloc(pend.oldp, pend.oldn, pend.align, pend.newn, q) /\ got' = q
    /\ UNCHANGED <<hist, made>>

ImplRet ==
    /\ pend.op = "realloc"
    /\ \/ pend.oldn = 0 /\ pend.newn = 0 /\ Ret(pend.align, 0)            \* returns `align as *mut u8`
       \/ got >= 0 /\ Ret(got, Min(pend.oldn, pend.newn))                   \* a well-behaved realloc keeps contents
    /\ made' = [p \in Dom(blocks') |-> IF p \in Dom(blocks) /\ ~(pend.oldn > 0 /\ p = pend.oldp) /\ p # got
                                        THEN made[p] ELSE Len(hist)]
    /\ got' = 0 - 1 /\ UNCHANGED hist

\* --- model of Cleanup::new / drop / forget
CNewZero ==
    /\ Len(hist) < MaxReq /\ pend = NoCall /\ got = 0 - 1
    /\ \E a \in Aligns : CleanupNew(Len(hist) + 1, 0, a, 0, FALSE)
                          /\ hist' = Append(hist, [op |-> "cnew", size |-> 0, align |-> a])
    /\ UNCHANGED <<made, got>>
CNewAlloc ==       \* allocator step, remembered in `got`; the object appears in the next step
    /\ Len(hist) < MaxReq /\ pend = NoCall /\ got = 0 - 1
    /\ \E s \in Sizes, a \in Aligns, p \in Addrs :
          /\ Fits(p, s, a) /\ SysAlloc(s, a, p) /\ got' = p
    /\ UNCHANGED <<hist, made>>
CNewDone ==
    /\ pend = NoCall /\ got >= 0 /\ got \in Dom(heap) /\ got \notin Dom(blocks)
    /\ \A id \in Dom(cleanups) : cleanups[id].addr # got
    /\ CleanupNew(Len(hist) + 1, heap[got].size, heap[got].align, got, TRUE)
    /\ hist' = Append(hist, [op |-> "cnew", size |-> heap[got].size, align |-> heap[got].align])
    /\ got' = 0 - 1 /\ UNCHANGED made
CDropFree ==       \* Drop: dealloc with the stored layout ...
    /\ Len(hist) < MaxReq /\ pend = NoCall /\ got = 0 - 1
    /\ \E id \in Dom(cleanups) : /\ cleanups[id].st = "live" /\ cleanups[id].addr \in Dom(heap)
                                  /\ SysDealloc(cleanups[id].addr, cleanups[id].size, cleanups[id].align)
                                  /\ got' = 0 - (id + 1)
    /\ UNCHANGED <<hist, made>>
CDropDone ==       \* ... and the object is gone
    /\ got < 0 - 1
    /\ CleanupDrop(0 - got - 1)
    /\ hist' = Append(hist, [op |-> "cdrop", id |-> 0 - got - 1])
    /\ got' = 0 - 1 /\ UNCHANGED made
CForget ==
    /\ Len(hist) < MaxReq /\ pend = NoCall /\ got = 0 - 1
    /\ \E id \in Dom(cleanups) : cleanups[id].st = "live" /\ CleanupForget(id)
                                  /\ hist' = Append(hist, [op |-> "cforget", id |-> id])
    /\ UNCHANGED <<made, got>>

MCNext == HostCall \/ ImplAlloc \/ ImplRealloc \/ ImplRet \/ CNewZero \/ CNewAlloc \/ CNewDone \/ CDropFree \/ CDropDone \/ CForget

Quiescent == pend = NoCall /\ got = 0 - 1
MCView == <<vars, got>>

Emit == (Len(hist) = MaxReq /\ Quiescent) => PrintT(<<"VEC", ToJson([hist |-> hist])>>)

W_ReallocMoves == ~(\E i \in 1..Len(hist) : hist[i].op = "realloc" /\ hist[i].oldn > 0 /\ hist[i].newn > hist[i].oldn)
W_HasBlock == Dom(blocks) = {}
W_Pending == ~(pend.op = "realloc" /\ pend.oldn > 0)
W_ZeroZero == ~(\E i \in 1..Len(hist) : hist[i].op = "realloc" /\ hist[i].oldn = 0 /\ hist[i].newn = 0)
W_Forget == ~(\E id \in Dom(cleanups) : cleanups[id].st = "forgotten")
=============================================================================
