INIT TInit
NEXT TNext
INVARIANTS BreachInfo HostBlocksAreLive HostBlocksDisjoint
POSTCONDITION Accepted
CHECK_DEADLOCK FALSE
