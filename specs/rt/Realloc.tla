------------------------------- MODULE Realloc -------------------------------
(* The guest allocation entry point `cabi_realloc` and the scratch-allocation helper        *)
(* `Cleanup` (crates/guest-rust/src/rt/mod.rs), property C24.                                *)
(*                                                                                          *)
(* Two layers of state:                                                                     *)
(*   heap   - what the Rust global allocator has handed out: addr -> [size, align]          *)
(*            (the GlobalAlloc contract: realloc/dealloc only on live blocks with the       *)
(*            layout they were allocated with -- anything else is undefined behaviour);     *)
(*   blocks - what the *host* believes it owns after each entry-point call.                 *)
(* An entry call is `Call` ... allocator steps ... `Ret`.  Addresses are small integers     *)
(* (offsets into the harness arena).                                                        *)
EXTENDS Integers, Sequences, FiniteSets, TLC

VARIABLES heap,      \* [addr -> [size, align]]  live allocator blocks
          blocks,    \* [addr -> [size, align]]  blocks the host owns (non-empty ones)
          cleanups,  \* [id -> [addr, size, align, st]]  st \in {"live","dropped","forgotten"}
          pend,      \* the entry call in progress, or NoCall
          bad        \* first contract breach observed ("" if none)

vars == <<heap, blocks, cleanups, pend, bad>>
NoCall == [op |-> "none"]

Init == heap = <<>> /\ blocks = <<>> /\ cleanups = <<>> /\ pend = NoCall /\ bad = ""

Dom(f) == DOMAIN f
Put(f, k, v) == [x \in Dom(f) \cup {k} |-> IF x = k THEN v ELSE f[x]]
Del(f, k) == [x \in Dom(f) \ {k} |-> f[x]]
Flag(msg) == bad' = IF bad = "" THEN msg ELSE bad

Overlaps(a, n, b, m) == a < b + m /\ b < a + n
FreeRange(h, a, n) == \A b \in Dom(h) : ~Overlaps(a, n, b, h[b].size)

-----------------------------------------------------------------------------
\* Allocator layer (what std::alloc::{alloc, realloc, dealloc} were asked to do)

SysAlloc(size, align, p) ==
    /\ heap' = Put(heap, p, [size |-> size, align |-> align])
    /\ Flag(IF size = 0 THEN "alloc of size 0"
            ELSE IF p = 0 \/ p % align # 0 \/ ~FreeRange(heap, p, size) THEN "allocator returned a bad block"
            ELSE "")
    /\ UNCHANGED <<blocks, cleanups, pend>>

SysDealloc(p, size, align) ==
    /\ heap' = IF p \in Dom(heap) THEN Del(heap, p) ELSE heap
    /\ Flag(IF p \notin Dom(heap) THEN "dealloc of a block that is not live (double free or foreign pointer)"
            ELSE IF heap[p].size # size \/ heap[p].align # align THEN "dealloc with a layout different from the allocation's"
            ELSE "")
    /\ UNCHANGED <<blocks, cleanups, pend>>

SysRealloc(p, size, align, new, q) ==
    /\ heap' = Put(IF p \in Dom(heap) THEN Del(heap, p) ELSE heap, q, [size |-> new, align |-> align])
    /\ Flag(IF p \notin Dom(heap) THEN "realloc of a block that is not live"
            ELSE IF heap[p].size # size \/ heap[p].align # align THEN "realloc with a layout different from the allocation's"
            ELSE IF new = 0 THEN "realloc to size 0"
            ELSE "")
    /\ UNCHANGED <<blocks, cleanups, pend>>

-----------------------------------------------------------------------------
\* Entry point layer

\* The host may pass: (old_len = 0: any old_ptr) or a block it owns with its size and align.
ValidRequest(oldp, oldn, align, newn) ==
    \/ oldn = 0
    \/ oldp \in Dom(blocks) /\ blocks[oldp].size = oldn /\ blocks[oldp].align = align /\ newn > 0

Call(oldp, oldn, align, newn) ==
    /\ pend = NoCall
    /\ ValidRequest(oldp, oldn, align, newn)
    /\ pend' = [op |-> "realloc", oldp |-> oldp, oldn |-> oldn, align |-> align, newn |-> newn]
    /\ UNCHANGED <<heap, blocks, cleanups, bad>>

Min(a, b) == IF a < b THEN a ELSE b

\* `ret` is the returned address, `kept` the number of leading bytes of the new block that
\* equal the old block's contents (measured by the harness, at most Min(oldn, newn)).
Ret(ret, kept) ==
    /\ pend.op = "realloc"
    /\ LET c == pend
           b1 == IF c.oldn > 0 THEN Del(blocks, c.oldp) ELSE blocks
       IN /\ blocks' = IF c.newn > 0 THEN Put(b1, ret, [size |-> c.newn, align |-> c.align]) ELSE b1
          /\ Flag(IF c.oldn = 0 /\ c.newn = 0 THEN (IF ret # c.align THEN "zero-sized request did not return the alignment" ELSE "")
                  ELSE IF ret = 0 THEN "null pointer returned"
                  ELSE IF ret % c.align # 0 THEN "misaligned pointer returned"
                  ELSE IF kept # Min(c.oldn, c.newn) THEN "old contents not preserved"
                  ELSE IF ~(ret \in Dom(heap) /\ heap[ret].size = c.newn) THEN "returned block is not a live allocation of the requested size"
                  ELSE IF ~FreeRange(b1, ret, c.newn) THEN "returned block overlaps a block the host still owns"
                  ELSE "")
    /\ pend' = NoCall
    /\ UNCHANGED <<heap, cleanups>>

-----------------------------------------------------------------------------
\* Cleanup

CleanupNew(id, size, align, p, has) ==
    /\ pend = NoCall
    /\ cleanups' = Put(cleanups, id, [addr |-> p, size |-> size, align |-> align,
                                      st |-> IF has THEN "live" ELSE "none"])
    /\ Flag(IF (size = 0) # (p = 0) THEN "Cleanup::new: pointer is null exactly when size is 0 -- violated"
            ELSE IF (size = 0) # (~has) THEN "Cleanup::new: cleanup object present exactly when size is non-zero -- violated"
            ELSE IF size > 0 /\ ~(p \in Dom(heap) /\ heap[p].size = size /\ heap[p].align = align) THEN "Cleanup::new: not a live block of that layout"
            ELSE IF size > 0 /\ p % align # 0 THEN "Cleanup::new: misaligned"
            ELSE "")
    /\ UNCHANGED <<heap, blocks, pend>>

CleanupDrop(id) ==
    /\ id \in Dom(cleanups) /\ cleanups[id].st = "live"
    /\ cleanups' = [cleanups EXCEPT ![id].st = "dropped"]
    /\ Flag(IF cleanups[id].addr \in Dom(heap) THEN "Cleanup dropped but its block is still allocated (leak)" ELSE "")
    /\ UNCHANGED <<heap, blocks, pend>>

CleanupForget(id) ==
    /\ id \in Dom(cleanups) /\ cleanups[id].st = "live"
    /\ cleanups' = [cleanups EXCEPT ![id].st = "forgotten"]
    /\ Flag(IF cleanups[id].addr \notin Dom(heap) THEN "Cleanup forgotten but its block was freed" ELSE "")
    /\ UNCHANGED <<heap, blocks, pend>>

-----------------------------------------------------------------------------
NoBreach == bad = ""
HostBlocksAreLive == pend = NoCall => \A p \in Dom(blocks) : p \in Dom(heap) /\ heap[p].size = blocks[p].size
HostBlocksDisjoint == \A p, q \in Dom(blocks) : p # q => ~Overlaps(p, blocks[p].size, q, blocks[q].size)
=============================================================================
